// clustermc — E9: the cluster glue (HandleCluster, proposal encoding, Ready handling, apply
// loop, WAL/snapshot persistence, restart) driven in-process from the real components.
package main

import (
	"encoding/json"
	"fmt"
	"os"
	"runtime"
	"runtime/pprof"
	"time"

	rt "github.com/innovationb1ue/RedisGO/verifrt"
	"verif/ev"
	"verif/h"
	"verif/pool"
)

func main() {
	pool.Register("c14", c14Worker)
	pool.Register("c07", c07Worker)
	pool.Register("c08", c08Worker)
	pool.Register("c07s", scriptWorker)
	pool.WorkerMain()
	if len(os.Args) < 2 {
		fmt.Fprintln(os.Stderr, "usage: clustermc C14|C07|C08 | replay <file>")
		os.Exit(2)
	}
	switch os.Args[1] {
	case "C14":
		os.Exit(runC14())
	case "C07":
		os.Exit(runC07())
	case "C08":
		os.Exit(runC08())
	case "race":
		n := 5
		fmt.Sscan(os.Args[2], &n)
		os.Exit(racePass(n))
	case "mem":
		// debugging aid: memory growth of one deep task
		b, _ := json.Marshal(c07Task{Workload: 0, Merge: 0, Bound: 2, MaxRuns: 300, Lo: 3, Hi: 6})
		c07Worker(b, func() {})
		var ms runtime.MemStats
		runtime.ReadMemStats(&ms)
		fmt.Printf("heap=%dMB sys=%dMB goroutines=%d\n", ms.HeapAlloc>>20, ms.Sys>>20, runtime.NumGoroutine())
		f, _ := os.Create(os.Getenv("VERIF_SCRATCH") + "/heap.prof")
		pprof.WriteHeapProfile(f)
		f.Close()
		g, _ := os.Create(os.Getenv("VERIF_SCRATCH") + "/goroutines.txt")
		pprof.Lookup("goroutine").WriteTo(g, 1)
		g.Close()
		os.Exit(0)
	case "one8":
		h.Boot(2, 1)
		rt.CurMode = rt.Free
		cfg := c08Cfg{Nodes: 3, Writes: 5, SnapCount: 0, ClientAt: 1}
		fmt.Sscan(os.Args[2], &cfg.Nodes)
		if len(os.Args) > 6 {
			fmt.Sscan(os.Args[6], &cfg.ClientAt)
		}
		fmt.Sscan(os.Args[3], &cfg.SnapCount)
		fmt.Sscan(os.Args[4], &cfg.CatchUp)
		at := -1
		fmt.Sscan(os.Args[5], &at)
		r := c08Run(cfg, c08Plan{At: at, Nodes: []int{0}, Order: []int{0}})
		fmt.Printf("opps=%d sync=%v acked=%d desc=%s snaps=%d viol=%+v\n", r.Opportunities, r.SyncOpps, r.Acked, r.Desc, r.Snapshots, r.Viol)
		os.Exit(0)
	case "one":
		// debugging aid: one default run of workload 0
		h.Boot(2, 1)
		rt.CurMode = rt.Free
		wi, mi := 0, 0
		if len(os.Args) > 3 {
			fmt.Sscan(os.Args[2], &wi)
			fmt.Sscan(os.Args[3], &mi)
		}
		w := c07Workloads()[wi]
		debugDump = true
		var devs []deviation
		for _, a := range os.Args[4:] {
			var d deviation
			fmt.Sscanf(a, "%d:%s", &d.Pos, &d.Kind)
			k, n := parseAlt(d.Kind)
			d.Kind, d.Arg = k, n
			devs = append(devs, d)
		}
		r := runOnce(w, merges(w)[mi], devs, false)
		fmt.Printf("points=%d events=%v\nhistory=%s\nviol=%+v\n", r.Points, r.Events, r.History, r.Viol)
		os.Exit(0)
	case "replay":
		fmt.Println("replay: the violation file holds the program; re-run ./vf check <id> to re-evaluate it (programs are deterministic)")
		os.Exit(0)
	}
	fmt.Fprintln(os.Stderr, "unknown property", os.Args[1])
	os.Exit(2)
}

func runC14() int {
	tier := os.Getenv("VERIF_TIER")
	rep := ev.NewReport("C14", "model_checking")
	p := &pool.Pool{Handler: "c14", N: 16, Timeout: 4 * time.Minute, MemMB: 3072}
	var tasks [][]byte
	n := 32
	for s := 0; s < n; s++ {
		b, _ := json.Marshal(c14Task{Shard: s, Of: n, Depth2: true})
		tasks = append(tasks, b)
	}
	_ = tier
	programs, commands, distinct, cutProgs := 0, 0, 0, 0
	var samples []string
	crashes := 0
	p.Map(tasks, func(tb, out []byte, crash *pool.Crash) [][]byte {
		if crash != nil {
			crashes++
			var t c14Task
			json.Unmarshal(tb, &t)
			rep.Add(&ev.Violation{Engine: "clustermc", Kind: "worker-" + crash.Kind, Cmd: "loopback", Shape: fmt.Sprintf("shard%d", t.Shard),
				Detail: fmt.Sprintf("worker %s: %s", crash.Kind, crash.Detail), Replay: map[string]interface{}{"engine": "clustermc", "shard": t.Shard}})
			return nil
		}
		var r c14Result
		json.Unmarshal(out, &r)
		programs += r.Programs
		commands += r.Commands
		distinct += r.Distinct
		cutProgs += r.Cut
		if len(samples) < 6 {
			samples = append(samples, r.Samples...)
		}
		for _, v := range r.Viol {
			rep.Add(&ev.Violation{Engine: "clustermc", Kind: v.Kind, Cmd: v.Cmd, Shape: v.Shape, Detail: v.Detail,
				Replay: map[string]interface{}{"engine": "clustermc", "prop": "C14", "program": v.Program}})
		}
		return nil
	})
	if len(samples) == 0 {
		samples = []string{"(none)"}
	}
	cov := map[string]interface{}{
		"states":                        programs,
		"transitions":                   commands,
		"traces_validated_against_impl": commands,
		"samples":                       samples,
		"exhaustive":                    crashes == 0 && cutProgs == 0,
		"programs_cut_after_three_timeouts_of_their_phase": cutProgs,
		"programs":          programs,
		"agreeing_commands": distinct,
		"templates":         len(templates),
		"hostile_strings":   hostile,
		"rule":              "differential: for every command template (all value types) x every argument position x every hostile byte string {a, A, empty, space, 'a b', CRLF, non-UTF-8, quote, backslash, multi-byte} (and other letter cases of the command name), and every writer x reader pair with hostile arguments, from a populated keyspace: the reply and the full keyspace dump of the cluster execution path (HandleCluster -> proposal -> JSON entry -> publishEntries -> apply loop) must equal those of a standalone Manager.Handle fed the same bytes; every writer x reader pair is also committed as ONE batch of two entries from two connections (one publishEntries call), and run across a restart: after the writer the node is restarted (fresh Manager, callback table, handler) and the reader arrives while the old log is still to be re-applied (its handler waits while the entries of the previous life pass through the apply loop again)",
	}
	return rep.Finish(cov, []string{"consensus is short-circuited (one entry per proposal, in order); Raft carries Entry.Data opaquely (C15/C16)"})
}

func runC07() int {
	tier := os.Getenv("VERIF_TIER")
	bound, maxRuns := 1, 2500
	if tier == "thorough" {
		bound, maxRuns = 2, 6000
	}
	rep := ev.NewReport("C07", "exploration")
	p := &pool.Pool{Handler: "c07", N: 16, Timeout: 120 * time.Second, MemMB: 6144, MaxTasks: 1}
	var tasks [][]byte
	for wi, w := range c07Workloads() {
		for mi := range merges(w) {
			if bound < 2 {
				b, _ := json.Marshal(c07Task{Workload: wi, Merge: mi, Bound: bound, MaxRuns: maxRuns})
				tasks = append(tasks, b)
				continue
			}
			// deep search: one task per window of 3 first-deviation positions
			for lo := 0; lo < 90; lo += 3 {
				b, _ := json.Marshal(c07Task{Workload: wi, Merge: mi, Bound: bound, MaxRuns: maxRuns, Lo: lo, Hi: lo + 3})
				tasks = append(tasks, b)
			}
		}
	}
	runs, deviating, truncated := 0, 0, 0
	// overall budget of the deviation search (thorough: 30 windows per workload and merge, up to 10
	// minutes each): windows not started when it ends are counted and reported, never guessed
	windowsNotRun := 0
	searchEnd := time.Now().Add(45 * time.Minute)
	p.Skip = func([]byte) bool {
		if time.Now().After(searchEnd) {
			windowsNotRun++
			return true
		}
		return false
	}
	var samples []string
	p.Map(tasks, func(tb, out []byte, crash *pool.Crash) [][]byte {
		var t c07Task
		json.Unmarshal(tb, &t)
		if crash != nil {
			rep.Add(&ev.Violation{Engine: "clustermc", Kind: "worker-" + crash.Kind, Cmd: c07Workloads()[t.Workload].Name, Shape: fmt.Sprintf("merge%d", t.Merge),
				Detail: fmt.Sprintf("worker %s: %s", crash.Kind, crash.Detail), Replay: map[string]interface{}{"engine": "clustermc", "task": t}})
			return nil
		}
		var r c07Result
		json.Unmarshal(out, &r)
		runs += r.Runs
		deviating += r.Deviating
		if r.Truncated {
			truncated++
		}
		if r.Sample != "" && len(samples) < 6 {
			samples = append(samples, r.Sample)
		}
		for _, v := range r.Viol {
			rep.Add(&ev.Violation{Engine: "clustermc", Kind: v.Kind, Cmd: v.Cmd, Shape: v.Shape, Detail: v.Detail,
				Replay: map[string]interface{}{"engine": "clustermc", "prop": "C07", "run": v.Program}})
		}
		return nil
	})
	// scripted fault families (scripts.go)
	ps := &pool.Pool{Handler: "c07s", N: 16, Timeout: 120 * time.Second, MemMB: 6144, MaxTasks: 1}
	var stasks [][]byte
	for _, sc := range scripts(tier) {
		b, _ := json.Marshal(scriptTask{Script: sc})
		stasks = append(stasks, b)
	}
	scriptRuns := 0
	ps.Map(stasks, func(tb, out []byte, crash *pool.Crash) [][]byte {
		var t scriptTask
		json.Unmarshal(tb, &t)
		if crash != nil {
			rep.Add(&ev.Violation{Engine: "clustermc", Kind: "worker-" + crash.Kind, Cmd: t.Script.name(), Shape: t.Script.Family,
				Detail: fmt.Sprintf("worker %s: %s", crash.Kind, crash.Detail), Replay: map[string]interface{}{"engine": "clustermc", "script": t.Script}})
			return nil
		}
		var r c07Result
		json.Unmarshal(out, &r)
		scriptRuns += r.Runs
		runs += r.Runs
		deviating += r.Deviating
		if r.Sample != "" && len(samples) < 8 {
			samples = append(samples, r.Sample)
		}
		for _, v := range r.Viol {
			rep.Add(&ev.Violation{Engine: "clustermc", Kind: v.Kind, Cmd: v.Cmd, Shape: v.Shape, Detail: v.Detail,
				Replay: map[string]interface{}{"engine": "clustermc", "prop": "C07", "run": v.Program, "script": t.Script}})
		}
		return nil
	})
	raceReps := 5
	if tier == "thorough" {
		raceReps = 40
	}
	raceRuns, raceReports, raceRan := runRace(rep, raceReps)
	if len(samples) == 0 {
		samples = []string{"(no deviating run)"}
	}
	cov := map[string]interface{}{
		"evaluations":         runs,
		"distinct_nontrivial": deviating,
		"rule":                "in-process 3-node cluster from the real components; for every workload (2-3 clients on leader/followers, 1-2 commands each) and every merge order of the client programs, the default schedule (process every Ready, deliver FIFO, submit at quiescence) and every placement of <= the deviation bound deviations (drop / duplicate / out-of-order delivery of a pooled message, campaign on a non-leader, crash of a node with restart at the next quiescence, submitting the next command before quiescence) at every decision point; non-trivial = runs with >= 1 deviation. Oracle: linearizable client history (unacknowledged commands at most once), replicas with equal applied index identical, most advanced replica = end state of a linearization, no node panic",
		"samples":             samples,
		"exhaustive":          truncated == 0 && windowsNotRun == 0,
		"deviation_bound":     bound,
		"search_tasks":        len(tasks),
		"search_tasks_not_started_within_45_minutes": windowsNotRun,
		"tasks_truncated":     truncated,
		"workloads":           len(c07Workloads()),
		"scripted_fault_runs": scriptRuns,
		"scripted_families":   "stale-leader-tail (leader isolated with 1..k unreplicated entries, new leader acknowledges 1..k writes, heal, restarts of {none, old leader, all, new leader}); follower-lag (follower isolated over 1..k writes, heal, restarts); remove-node (rconf delete of every node id through every node, before / after a write, local-shortcut and replicated spelling, then two more writes and reads on the remaining nodes); add-node (rconf add of a fourth node through each node, the new node started with --join before / after the change commits, writes, reads on all four, restarts of the new node / of everybody); rconf-malformed (11 malformed rconf commands: no node may go down)",
		"race_pass_ran":       raceRan,
		"race_pass_runs":      raceRuns,
		"race_reports":        raceReports,
	}
	return rep.Finish(cov, []string{
		"rafthttp transport, the raft.Node channel wrapper, OS-level kill and TCP are replaced by the simulator; membership changes are exercised by the scripted families only (one change per run); the transport's peers are stubs",
		"a node crash is a process crash: everything written to files survives (sector loss is C16's fault model)",
	})
}

func runC08() int {
	tier := os.Getenv("VERIF_TIER")
	writes := 5
	if tier == "thorough" {
		writes = 8
	}
	var cfgs []c08Cfg
	for _, nodes := range []int{1, 3} {
		for _, th := range [][2]uint64{{0, 0}, {2, 1}, {3, 2}, {3, 3}} {
			for _, at := range []int{0, 1} {
				if nodes == 1 && at == 1 {
					continue
				}
				cfgs = append(cfgs, c08Cfg{Nodes: nodes, Writes: writes, SnapCount: th[0], CatchUp: th[1], ClientAt: at})
				if th[0] != 0 {
					cfgs = append(cfgs, c08Cfg{Nodes: nodes, Writes: writes, SnapCount: th[0], CatchUp: th[1], ClientAt: at, NoList: true})
				}
			}
		}
	}
	rep := ev.NewReport("C08", "fault_enumeration")
	p := &pool.Pool{Handler: "c08", N: 16, Timeout: 180 * time.Second, MemMB: 6144, MaxTasks: 1}
	var tasks [][]byte
	for _, c := range cfgs {
		of := 1
		if c.Nodes == 3 {
			of = 6
			if tier == "thorough" {
				of = 12
			}
		}
		for s := 0; s < of; s++ {
			b, _ := json.Marshal(c08Task{Cfg: c, Shard: s, Of: of})
			tasks = append(tasks, b)
		}
	}
	runs, crashes, syncCrashes, snaps, crashesW := 0, 0, 0, 0, 0
	var samples []string
	p.Map(tasks, func(tb, out []byte, crash *pool.Crash) [][]byte {
		var t c08Task
		json.Unmarshal(tb, &t)
		if crash != nil {
			crashesW++
			rep.Add(&ev.Violation{Engine: "clustermc", Kind: "worker-" + crash.Kind, Cmd: cfgName(t.Cfg), Shape: "worker",
				Detail: fmt.Sprintf("worker %s: %s", crash.Kind, crash.Detail), Replay: map[string]interface{}{"engine": "clustermc", "task": t}})
			return nil
		}
		var r c08Result
		json.Unmarshal(out, &r)
		runs += r.Runs
		crashes += r.Crashes
		syncCrashes += r.SyncCrashes
		snaps += r.Snapshots
		if r.Sample != "" && len(samples) < 6 {
			samples = append(samples, r.Sample)
		}
		for _, v := range r.Viol {
			rep.Add(&ev.Violation{Engine: "clustermc", Kind: v.Kind, Cmd: v.Cmd, Shape: v.Shape, Detail: v.Detail,
				Replay: map[string]interface{}{"engine": "clustermc", "prop": "C08", "cfg": t.Cfg}})
		}
		return nil
	})
	// scripted partition + restart families (scripts.go): a leader cut off with an unreplicated tail,
	// a follower cut off over several writes; heal; restarts of the old leader / everybody / a follower
	ps := &pool.Pool{Handler: "c07s", N: 16, Timeout: 120 * time.Second, MemMB: 6144, MaxTasks: 1}
	var stasks [][]byte
	for _, sc := range scripts(tier) {
		if sc.Family != "stale-leader-tail" && sc.Family != "follower-lag" {
			continue // the membership families belong to C07
		}
		b, _ := json.Marshal(scriptTask{Script: sc})
		stasks = append(stasks, b)
	}
	scriptRuns := 0
	ps.Map(stasks, func(tb, out []byte, crash *pool.Crash) [][]byte {
		var t scriptTask
		json.Unmarshal(tb, &t)
		if crash != nil {
			crashesW++
			rep.Add(&ev.Violation{Engine: "clustermc", Kind: "worker-" + crash.Kind, Cmd: t.Script.name(), Shape: t.Script.Family,
				Detail: fmt.Sprintf("worker %s: %s", crash.Kind, crash.Detail), Replay: map[string]interface{}{"engine": "clustermc", "script": t.Script}})
			return nil
		}
		var r c07Result
		json.Unmarshal(out, &r)
		scriptRuns += r.Runs
		runs += r.Runs
		crashes += r.Runs
		if r.Sample != "" && len(samples) < 8 {
			samples = append(samples, r.Sample)
		}
		for _, v := range r.Viol {
			rep.Add(&ev.Violation{Engine: "clustermc", Kind: v.Kind, Cmd: v.Cmd, Shape: v.Shape, Detail: v.Detail,
				Replay: map[string]interface{}{"engine": "clustermc", "prop": "C08", "script": t.Script}})
		}
		return nil
	})
	if len(samples) == 0 {
		samples = []string{"(no crash run)"}
	}
	cov := map[string]interface{}{
		"evaluations":                     runs,
		"distinct_nontrivial":             crashes,
		"rule":                            "history of acknowledged writes (strings, counter, list, set, hash, delete) on 1- and 3-node in-process clusters with (snapshot threshold, catch-up) in {(inf,inf),(2,1),(3,2),(3,3)}; every crash opportunity = every event boundary of the default schedule + every fsync/fdatasync callback inside the real Ready handling, x every non-empty node subset (containing the node whose Ready is interrupted) x restart orders; after restart + stabilise every key is read on every node and must reflect the acknowledged prefix (the write in flight may or may not be there). Non-trivial = runs in which a crash was injected",
		"samples":                         samples,
		"exhaustive":                      crashesW == 0,
		"configurations":                  len(cfgs),
		"writes":                          writes,
		"crashes_at_sync_points":          syncCrashes,
		"runs_ending_with_snapshot":       snaps,
		"scripted_partition_restart_runs": scriptRuns,
		"durability_invariant":            "after every Ready that changes term, vote or log, a copy of the node's directory is restarted through replayWAL and must recover the live term, vote and log",
	}
	return rep.Finish(cov, []string{
		"a crash is a process crash (files keep everything written); sector-level loss of unsynced data is C16's fault model",
		"rafthttp transport and OS processes are replaced by the simulator",
	})
}
