package main

// C07 — cluster mode is linearizable and all replicas apply the same history.
// Iterative deviation bounding over the default schedule of the in-process cluster.

import (
	"encoding/json"
	"fmt"
	"runtime/debug"
	"sort"
	"strings"
	"time"

	rt "github.com/innovationb1ue/RedisGO/verifrt"
	"verif/h"
	"verif/lin"
	"verif/model"
)

// A run is driven by a default policy; a deviation replaces the default event at a position.
type deviation struct {
	Pos  int    // index of the decision point in the run
	Kind string // drop | reorder | dup | campaign | crash | submit | crash-sync
	Arg  int
}

type workload struct {
	Name    string
	Clients []clientSpec
}

func c07Workloads() []workload {
	w := []workload{
		{"incr-leader-follower", []clientSpec{{0, [][]string{{"INCR", "n"}, {"GET", "n"}}}, {1, [][]string{{"INCR", "n"}}}}},
		{"set-get-two-followers", []clientSpec{{1, [][]string{{"SET", "k", "a"}, {"GET", "k"}}}, {2, [][]string{{"SET", "k", "b"}, {"GET", "k"}}}}},
		{"list-push-pop", []clientSpec{{0, [][]string{{"RPUSH", "l", "x"}, {"LPOP", "l"}}}, {2, [][]string{{"RPUSH", "l", "y"}, {"LPOP", "l"}}}}},
		{"setnx-del-mixed", []clientSpec{{0, [][]string{{"SETNX", "k", "a"}}}, {1, [][]string{{"SETNX", "k", "b"}}}, {2, [][]string{{"DEL", "k"}, {"EXISTS", "k"}}}}},
		{"sadd-spaces", []clientSpec{{1, [][]string{{"SADD", "s", "a b"}, {"SMEMBERS", "s"}}}, {0, [][]string{{"SADD", "s", ""}, {"SCARD", "s"}}}}},
	}
	return w
}

type runResult struct {
	Points  int        // decision points of this run
	Alts    [][]string // alternatives available at each point (kind:arg)
	Viol    []c14Viol
	Events  []string
	History string
}

// runOnce executes the workload with the given merge order (sequence of client indexes) and
// deviations; decision points are numbered as they occur.
func runOnce(w workload, order []int, devs []deviation, crashSnap bool) runResult {
	var res runResult
	s := newSim(3, w.Clients)
	defer s.close()
	s.bootstrap()
	if s.failed != "" || s.leader() < 0 {
		res.Viol = append(res.Viol, c14Viol{Kind: "bootstrap", Cmd: "cluster", Shape: w.Name, Detail: "cluster did not elect a leader: " + s.failed})
		return res
	}
	devAt := map[int]deviation{}
	for _, d := range devs {
		devAt[d.Pos] = d
	}
	point := 0
	oi := 0
	advanced := false
	stalled := false
	var crashed []int
	decide := func(defKind string, alts []string) (string, int) {
		// record the alternatives at this point, then apply a deviation if one is placed here
		res.Alts = append(res.Alts, alts)
		p := point
		point++
		if d, ok := devAt[p]; ok {
			return d.Kind, d.Arg
		}
		return defKind, 0
	}
	maxEvents := 600
	for ev := 0; ev < maxEvents && s.failed == ""; ev++ {
		for i := range s.nodes {
			s.pump(i)
		}
		quiescent := s.anyReady() < 0 && len(s.pool) == 0
		var alts []string
		inflight := !quiescent
		// alternatives available here
		if len(s.pool) > 0 {
			// duplication of a message is not among the faults the property lists (loss, delay,
			// leader change, crash-restart); the Raft core's tolerance of duplicates is C15's
			alts = append(alts, "drop:0")
			if len(s.pool) > 1 {
				alts = append(alts, "reorder:1", fmt.Sprintf("reorder:%d", len(s.pool)-1), fmt.Sprintf("drop:%d", len(s.pool)-1))
			}
		}
		if inflight {
			for i, n := range s.nodes {
				if n.alive && i != s.leader() {
					alts = append(alts, fmt.Sprintf("campaign:%d", i))
				}
				if n.alive && len(crashed) == 0 {
					alts = append(alts, fmt.Sprintf("crash:%d", i))
				}
			}
			if oi < len(order) {
				alts = append(alts, "submit:0")
			}
			if !advanced && len(rt.CurWorld().PendingTimers()) > 0 {
				// time passes (10 s of the virtual clock) while a command is still uncommitted: whatever the
				// node's handlers do on their own timers happens now (offered only when some timer of the
				// instrumented packages - memdb, resp, util, server - is pending)
				alts = append(alts, "advance:0")
			}
		}
		if oi < len(order) && !stalled {
			// the client's connection handler is held at its next lock operation after it has handed
			// over the proposal, until the end of the run (a goroutine that is simply not scheduled)
			alts = append(alts, "stall:0")
		}
		def := "end"
		switch {
		case s.anyReady() >= 0:
			def = "ready"
		case len(s.pool) > 0:
			def = "deliver"
		case len(crashed) > 0:
			def = "restart"
		case oi < len(order):
			def = "submit"
		}
		if def == "end" {
			break
		}
		kind, arg := decide(def, alts)
		switch kind {
		case "ready":
			s.processReady(s.anyReady())
		case "deliver":
			s.deliver(0)
		case "restart":
			for _, i := range crashed {
				s.restartNode(i)
				res.Events = append(res.Events, fmt.Sprintf("restart(n%d)", i+1))
			}
			crashed = nil
			s.stabilise(300)
			// a restarted cluster may have lost its leader
			if s.leader() < 0 {
				s.campaign(0)
				s.stabilise(300)
			}
		case "submit":
			for oi < len(order) {
				ci := order[oi]
				oi++
				if s.submit(ci) {
					res.Events = append(res.Events, fmt.Sprintf("submit(c%d %q)", ci, s.clients[ci].prog[s.clients[ci].next-1]))
					break
				}
			}
		case "stall":
			stalled = true
			for oi < len(order) {
				ci := order[oi]
				oi++
				if s.submitStalled(ci) {
					res.Events = append(res.Events, fmt.Sprintf("submit(c%d %q) HANDLER-HELD-AT-ITS-NEXT-LOCK", ci, s.clients[ci].prog[s.clients[ci].next-1]))
					break
				}
			}
		case "drop":
			if arg < len(s.pool) {
				res.Events = append(res.Events, fmt.Sprintf("DROP(%s->n%d)", s.pool[arg].Type, s.pool[arg].To))
				s.drop(arg)
			}
		case "dup":
			if arg < len(s.pool) {
				res.Events = append(res.Events, fmt.Sprintf("DUP(%s->n%d)", s.pool[arg].Type, s.pool[arg].To))
				s.dup(arg)
			}
		case "reorder":
			if arg < len(s.pool) {
				res.Events = append(res.Events, fmt.Sprintf("DELIVER-OUT-OF-ORDER(%s->n%d)", s.pool[arg].Type, s.pool[arg].To))
				s.deliver(arg)
			}
		case "advance":
			res.Events = append(res.Events, "CLOCK+10s")
			advanced = true
			s.advanceClock(10 * time.Second)
		case "campaign":
			res.Events = append(res.Events, fmt.Sprintf("CAMPAIGN(n%d)", arg+1))
			s.campaign(arg)
		case "crash":
			res.Events = append(res.Events, fmt.Sprintf("CRASH(n%d)", arg+1))
			s.killNode(arg)
			crashed = append(crashed, arg)
		}
		s.takePanics()
		if len(s.panics) > 0 {
			break
		}
	}
	s.stabilise(400)
	s.finishGate()
	s.stabilise(400)
	s.takePanics()
	res.Points = point
	res.History = s.history()
	check(s, w, &res)
	return res
}

func ksLinModel() lin.Model {
	init := model.NewKS(rt.Epoch * 1000)
	return lin.Model{
		Init: func() interface{} { return init },
		Key:  func(st interface{}) string { return model.CanonString(st.(*model.KS).Canon()) },
		Step: func(st interface{}, in, out interface{}) []interface{} {
			ks := st.(*model.KS)
			outs := ks.Apply(in.([][]byte))
			var res []interface{}
			if out == nil {
				// unacknowledged: may or may not have taken effect (at most once)
				for _, o := range outs {
					if o.Next != nil {
						res = append(res, o.Next)
					}
				}
				return res
			}
			for _, o := range outs {
				if n, why := o.Check(out.(model.Val)); why == "" {
					res = append(res, n)
				}
			}
			return res
		},
	}
}

var debugDump bool

func check(s *sim, w workload, res *runResult) {
	if debugDump {
		for _, n := range s.nodes {
			if n.alive {
				fmt.Printf("node %d applied=%d dump=%s\n", n.id, n.rc.VerifAppliedIndex(), strings.ReplaceAll(model.CanonString(h.CanonOf(n.mgr.CurrentDB.VerifDump())), "\n", " | "))
			}
		}
	}
	add := func(kind, detail string) {
		res.Viol = append(res.Viol, c14Viol{Kind: kind, Cmd: w.Name, Shape: strings.Join(devKinds(res.Events), "+"), Detail: fmt.Sprintf("workload %s, events %v: %s; history: %s", w.Name, res.Events, detail, res.History)})
	}
	if s.failed != "" {
		add("harness", s.failed)
		return
	}
	if len(s.panics) > 0 {
		add("node-panic", "a node goroutine panicked (the real process would exit): "+strings.Join(s.panics, " | "))
		return
	}
	if len(s.shadowViol) > 0 {
		add("not-durable", s.shadowViol[0])
		return
	}
	if len(s.replyLost) > 0 {
		add("reply-lost", s.replyLost[0])
		return
	}
	var ops []lin.Op
	for _, c := range s.clients {
		for _, o := range c.ops {
			if len(o.Args) > 0 && strings.EqualFold(o.Args[0], "rconf") {
				continue // administrative: not a keyspace command
			}
			op := lin.Op{Thread: o.Client, Call: o.Call, Ret: o.Ret, Pending: !o.Done, In: h.B(o.Args...)}
			if o.Done {
				op.Out = o.Reply
			} else {
				op.Ret = 1 << 60
			}
			if o.GaveUp {
				// the node answered with an error while the command was uncommitted and time passed: the
				// client was told "not done"; like an unacknowledged command it may still take effect, once
				op.Pending, op.Out, op.Ret = true, nil, 1<<60
			}
			ops = append(ops, op)
		}
	}
	m := ksLinModel()
	if ok, _ := lin.Check(ops, m, nil); !ok {
		add("non-linearizable", "no sequential order of the commands (unacknowledged ones taking effect at most once) explains the replies")
		return
	}
	// replicas with equal applied index hold identical keyspaces; the most advanced one must be
	// the end state of some linearization
	type rep struct {
		id      int
		applied uint64
		canon   []model.CanonKey
	}
	var reps []rep
	for _, n := range s.nodes {
		if !n.alive {
			continue
		}
		reps = append(reps, rep{n.id, n.rc.VerifAppliedIndex(), h.CanonOf(n.mgr.CurrentDB.VerifDump())})
	}
	sort.Slice(reps, func(i, j int) bool { return reps[i].applied > reps[j].applied })
	for i := 1; i < len(reps); i++ {
		if reps[i].applied == reps[0].applied {
			if d := model.DiffCanon(reps[0].canon, reps[i].canon, 2000); d != "" {
				add("replicas-diverge", fmt.Sprintf("nodes %d and %d both applied index %d but hold different keyspaces: %s", reps[0].id, reps[i].id, reps[0].applied, d))
				return
			}
		}
	}
	if len(reps) > 0 {
		top := reps[0].canon
		if ok, _ := lin.Check(ops, m, func(st interface{}) bool { return model.DiffCanon(st.(*model.KS).Canon(), top, 2000) == "" }); !ok {
			add("state-not-explained", fmt.Sprintf("node %d (applied %d) holds %s, which is the end state of no linearization of the history", reps[0].id, reps[0].applied, strings.ReplaceAll(model.CanonString(top), "\n", " | ")))
		}
	}
}

func devKinds(events []string) []string {
	var out []string
	for _, e := range events {
		if e == strings.ToUpper(e[:1])+e[1:] && strings.ToUpper(e[:2]) == e[:2] {
			if i := strings.Index(e, "("); i > 0 {
				e = e[:i]
			}
			out = append(out, strings.ToLower(e))
		}
	}
	if len(out) == 0 {
		out = []string{"default"}
	}
	return out
}

// merges enumerates all merge orders of the clients' programs.
func merges(w workload) [][]int {
	counts := make([]int, len(w.Clients))
	total := 0
	for i, c := range w.Clients {
		counts[i] = len(c.Prog)
		total += len(c.Prog)
	}
	var out [][]int
	var rec func(cur []int, left []int)
	rec = func(cur []int, left []int) {
		if len(cur) == total {
			out = append(out, append([]int{}, cur...))
			return
		}
		for i := range left {
			if left[i] > 0 {
				left[i]--
				rec(append(cur, i), left)
				left[i]++
			}
		}
	}
	rec(nil, counts)
	return out
}

type c07Task struct {
	Workload int
	Merge    int
	Bound    int
	MaxRuns  int
	// Lo/Hi restrict the position of the first deviation to [Lo,Hi) (Hi == 0: no restriction), so
	// that deep searches are split over several (recycled) worker processes
	Lo, Hi int
}

type c07Result struct {
	Runs, Deviating int
	Viol            []c14Viol
	Sample          string
	Truncated       bool
}

func parseAlt(a string) (string, int) {
	i := strings.Index(a, ":")
	var n int
	fmt.Sscan(a[i+1:], &n)
	return a[:i], n
}

func c07Worker(tb []byte, progress func()) []byte {
	var t c07Task
	json.Unmarshal(tb, &t)
	h.Boot(2, 1)
	rt.CurMode = rt.Free
	w := c07Workloads()[t.Workload]
	order := merges(w)[t.Merge]
	var res c07Result
	seen := map[string]bool{}
	deadline := time.Now().Add(10 * time.Minute)
	var explore func(devs []deviation, depth int)
	explore = func(devs []deviation, depth int) {
		if res.Runs >= t.MaxRuns || time.Now().After(deadline) {
			res.Truncated = true
			return
		}
		progress()
		r := runOnce(w, order, devs, false)
		res.Runs++
		if res.Runs%100 == 0 {
			debug.FreeOSMemory()
		}
		if len(devs) > 0 {
			res.Deviating++
			if res.Sample == "" {
				res.Sample = fmt.Sprintf("workload %s merge %v deviations %+v: events %v", w.Name, order, devs, r.Events)
			}
		}
		for _, v := range r.Viol {
			k := v.Kind + "|" + v.Shape
			if !seen[k] {
				seen[k] = true
				v.Program = [][]string{{fmt.Sprintf("workload=%s merge=%v deviations=%+v", w.Name, order, devs)}}
				res.Viol = append(res.Viol, v)
			}
		}
		if depth >= t.Bound {
			return
		}
		from := 0
		if len(devs) > 0 {
			from = devs[len(devs)-1].Pos + 1
		}
		for p := from; p < len(r.Alts); p++ {
			if depth == 0 && t.Hi > 0 && (p < t.Lo || p >= t.Hi) {
				continue
			}
			for _, a := range r.Alts[p] {
				k, n := parseAlt(a)
				explore(append(append([]deviation{}, devs...), deviation{Pos: p, Kind: k, Arg: n}), depth+1)
			}
		}
	}
	explore(nil, 0)
	b, _ := json.Marshal(res)
	return b
}
