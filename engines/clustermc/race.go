package main

// Free-running -race pass for C07: one real node (HandleCluster goroutines of several client
// connections + the apply loop + the Ready loop) under truly concurrent client load.  The
// resultCallback map, the Manager and the RaftNode fields are shared between those goroutines.

import (
	"fmt"
	"os"
	"os/exec"
	"sort"
	"strings"
	"sync"
	"sync/atomic"
	"time"

	rt "github.com/innovationb1ue/RedisGO/verifrt"
	"verif/ev"
	"verif/h"
	"verif/model"
)

func racePass(reps int) int {
	h.Boot(2, 1)
	rt.CurMode = rt.Free
	for r := 0; r < reps; r++ {
		var specs []clientSpec
		for c := 0; c < 3; c++ {
			var prog [][]string
			for k := 0; k < 15; k++ {
				prog = append(prog, []string{"INCR", "n"}, []string{"SET", fmt.Sprintf("k%d", c), fmt.Sprint(k)})
			}
			specs = append(specs, clientSpec{Node: 0, Prog: prog})
		}
		s := newSim(1, specs)
		s.bootstrap()
		n := s.nodes[0]
		var done int32
		var wg sync.WaitGroup
		for ci := range s.clients {
			wg.Add(1)
			go func(c *client) {
				defer wg.Done()
				for _, cmd := range c.prog {
					c.conn.Send(model.EncodeCommand(h.B(cmd...)))
					if _, _, st := c.conn.TakeReply(20 * time.Second); st != "ok" {
						fmt.Fprintf(os.Stderr, "VERIF-NOREPLY %q: %s\n", cmd, st)
						return
					}
				}
			}(s.clients[ci])
		}
		go func() { wg.Wait(); atomic.StoreInt32(&done, 1) }()
		for atomic.LoadInt32(&done) == 0 {
			select {
			case p := <-n.proposeC:
				n.vn.RN.Propose(p.ToBytes())
			case <-time.After(50 * time.Microsecond):
			}
			for n.vn.RN.HasReady() {
				rd := n.vn.RN.Ready()
				n.rc.VerifHandleReady(n.vn, rd)
			}
			if rt.HasFreePanics() {
				break
			}
		}
		if ps := rt.TakeFreePanics(); len(ps) > 0 {
			fmt.Fprintf(os.Stderr, "VERIF-PANIC func=%s value=%s\n", ps[0].Func, ps[0].Value)
		}
		s.close()
	}
	return 0
}

func firstRepoFunc(stack string) string {
	for _, ln := range strings.Split(stack, "\n") {
		ln = strings.TrimSpace(ln)
		if strings.HasPrefix(ln, "github.com/innovationb1ue/RedisGO/") && !strings.Contains(ln, "/verifrt") && !strings.Contains(ln, "Verif") {
			f := strings.TrimPrefix(ln, "github.com/innovationb1ue/RedisGO/")
			if i := strings.LastIndex(f, "("); i > 0 {
				f = f[:i]
			}
			return f
		}
	}
	return "?"
}

func runRace(rep *ev.Report, reps int) (int, int, bool) {
	bin := os.Getenv("VERIF_RACE_BIN")
	if bin == "" {
		return 0, 0, false
	}
	cmd := exec.Command(bin, "race", fmt.Sprint(reps))
	cmd.Env = append(os.Environ(), "GORACE=halt_on_error=0", "GOMAXPROCS=8")
	outb, _ := cmd.CombinedOutput()
	txt := string(outb)
	seen := map[string]bool{}
	reports := 0
	if i := strings.Index(txt, "fatal error:"); i >= 0 {
		line := txt[i:]
		if j := strings.Index(line, "\n"); j > 0 {
			line = line[:j]
		}
		fn := firstRepoFunc(txt[i:])
		rep.Add(&ev.Violation{Engine: "clustermc/race", Kind: "fatal", Cmd: "race-pass", Shape: line, Func: fn,
			Detail: fmt.Sprintf("free-running pass, 3 concurrent clients on one cluster node: %s (in %s): the node process dies", line, fn),
			Replay: map[string]interface{}{"engine": "clustermc", "mode": "race"}})
	}
	for _, blk := range strings.Split(txt, "WARNING: DATA RACE")[1:] {
		if j := strings.Index(blk, "=================="); j > 0 {
			blk = blk[:j]
		}
		var fs []string
		for _, p := range strings.Split(blk, "\n\n") {
			t := strings.TrimSpace(p)
			if strings.HasPrefix(t, "Write at") || strings.HasPrefix(t, "Read at") || strings.HasPrefix(t, "Previous write at") || strings.HasPrefix(t, "Previous read at") {
				fs = append(fs, firstRepoFunc(t))
			}
		}
		for len(fs) < 2 {
			fs = append(fs, "?")
		}
		fs = fs[:2]
		if fs[0] == "?" && fs[1] == "?" {
			// both accesses are in the harness itself: not a finding about the code under test
			fmt.Fprintln(os.Stderr, "clustermc: ignoring a race report without RedisGO frames:\n"+blk)
			continue
		}
		sort.Strings(fs)
		k := fs[0] + "|" + fs[1]
		reports++
		if seen[k] {
			continue
		}
		seen[k] = true
		rep.Add(&ev.Violation{Engine: "clustermc/race", Kind: "data-race", Cmd: "race-pass", Shape: fs[0] + " / " + fs[1], Func: fs[0],
			Detail: fmt.Sprintf("free-running -race pass, 3 concurrent clients on one cluster node: unsynchronised access between %s and %s", fs[0], fs[1]),
			Replay: map[string]interface{}{"engine": "clustermc", "mode": "race", "report": blk}})
	}
	for _, ln := range strings.Split(txt, "\n") {
		if strings.HasPrefix(ln, "VERIF-PANIC") || strings.HasPrefix(ln, "VERIF-NOREPLY") {
			k := strings.Fields(ln)[0]
			if !seen[k] {
				seen[k] = true
				rep.Add(&ev.Violation{Engine: "clustermc/race", Kind: strings.ToLower(strings.TrimPrefix(k, "VERIF-")), Cmd: "race-pass", Shape: "concurrent-clients", Detail: "free-running pass: " + ln,
					Replay: map[string]interface{}{"engine": "clustermc", "mode": "race"}})
			}
		}
	}
	return reps, reports, true
}
