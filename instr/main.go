// instr generates the build overlay that instruments the *current* tree of RedisGO.
//
//	instr -repo /repo -src /verif/overlay_src -out /verif/.build/ov-C01
//
// writes <out>/overlay.json and the rewritten / added files it refers to.  Nothing in
// <repo> is touched.  A missing anchor or an unsupported construct is a hard error (exit 2).
package main

import (
	"bytes"
	"encoding/json"
	"flag"
	"fmt"
	"go/ast"
	"go/format"
	"go/parser"
	"go/token"
	"os"
	"path/filepath"
	"sort"
	"strconv"
	"strings"
)

const rtPath = "github.com/innovationb1ue/RedisGO/verifrt"

var (
	repo = flag.String("repo", "/repo", "RedisGO tree")
	src  = flag.String("src", "/verif/overlay_src", "overlay sources")
	out  = flag.String("out", "", "output directory")
)

func die(f string, a ...interface{}) {
	fmt.Fprintf(os.Stderr, "instr: "+f+"\n", a...)
	os.Exit(2)
}

type overlay struct {
	Replace map[string]string
}

func main() {
	flag.Parse()
	if *out == "" {
		die("-out required")
	}
	if err := os.RemoveAll(*out); err != nil {
		die("%v", err)
	}
	if err := os.MkdirAll(*out, 0o755); err != nil {
		die("%v", err)
	}
	ov := overlay{Replace: map[string]string{}}

	// 1. rewritten packages
	for _, pkg := range []string{"memdb", "resp", "util", "server"} {
		curOpts = pkgOpts[pkg]
		dir := filepath.Join(*repo, pkg)
		ents, err := os.ReadDir(dir)
		if err != nil {
			die("%v", err)
		}
		for _, e := range ents {
			n := e.Name()
			if e.IsDir() || !strings.HasSuffix(n, ".go") || strings.HasSuffix(n, "_test.go") {
				continue
			}
			p := filepath.Join(dir, n)
			b, changed := rewriteFile(p)
			if !changed {
				continue
			}
			dst := filepath.Join(*out, pkg, n)
			os.MkdirAll(filepath.Dir(dst), 0o755)
			if err := os.WriteFile(dst, b, 0o644); err != nil {
				die("%v", err)
			}
			ov.Replace[p] = dst
		}
	}

	// 2. special rewrites
	raftExtract(&ov)
	fsyncCallback(&ov)

	// 3. added files: overlay_src/<rel>/x.go -> <repo>/<rel>/x.go
	filepath.Walk(*src, func(p string, info os.FileInfo, err error) error {
		if err != nil {
			die("%v", err)
		}
		if info.IsDir() || !strings.HasSuffix(p, ".go") {
			return nil
		}
		rel, _ := filepath.Rel(*src, p)
		target := filepath.Join(*repo, rel)
		if _, err := os.Stat(target); err == nil {
			die("added file %s already exists in the repository", target)
		}
		ov.Replace[target] = p
		return nil
	})

	keys := make([]string, 0, len(ov.Replace))
	for k := range ov.Replace {
		keys = append(keys, k)
	}
	sort.Strings(keys)
	b, _ := json.MarshalIndent(ov, "", " ")
	if err := os.WriteFile(filepath.Join(*out, "overlay.json"), b, 0o644); err != nil {
		die("%v", err)
	}
	fmt.Printf("instr: %d files in overlay\n", len(keys))
}

// opts selects the rewrites of a package.
type opts struct {
	time    bool            // time -> vtime
	chanOps bool            // channel sends / receives / close / binding selects -> vsync helpers
	skip    map[string]bool // functions left exactly as they are (native goroutines, channels, selects)
}

// memdb and util keep the rewrites they always had (their channels are closed / timer channels, which
// vsync.Select observes natively).  resp and server additionally get their channel operations
// rewritten, so that a connection handler (server.Manager.Handle) and its parser goroutine
// (resp.ParseStream) run under the controlled scheduler.  The cluster path of package server shares
// native channels with the un-instrumented raftexample package and is driven free-running only: those
// functions are left alone.  server keeps the real clock (it has no timers of its own).
var pkgOpts = map[string]opts{
	"memdb":  {time: true},
	"util":   {time: true},
	"resp":   {time: true, chanOps: true},
	"server": {chanOps: true, skip: map[string]bool{"HandleCluster": true, "handleClusterCommits": true, "Start": true}},
}

var curOpts opts

// rewriteFile applies the sync/time/go/select (and channel) rewrites to one file.
func rewriteFile(path string) ([]byte, bool) {
	fset := token.NewFileSet()
	f, err := parser.ParseFile(fset, path, nil, parser.ParseComments)
	if err != nil {
		die("parse %s: %v", path, err)
	}
	changed := false
	for _, im := range f.Imports {
		v, _ := strconv.Unquote(im.Path.Value)
		switch v {
		case "sync":
			if im.Name != nil && im.Name.Name != "sync" {
				die("%s: renamed sync import unsupported", path)
			}
			im.Path.Value = strconv.Quote(rtPath + "/vsync")
			im.Name = ast.NewIdent("sync")
			changed = true
		case "time":
			if !curOpts.time {
				continue
			}
			if im.Name != nil && im.Name.Name != "time" {
				die("%s: renamed time import unsupported", path)
			}
			im.Path.Value = strconv.Quote(rtPath + "/vtime")
			im.Name = ast.NewIdent("time")
			changed = true
		case "sync/atomic":
			// atomics are not blocking; left native
		}
	}
	needV := false
	var rewriteStmts func(list []ast.Stmt)
	var rewriteStmt func(s ast.Stmt) ast.Stmt
	rewriteStmt = func(s ast.Stmt) ast.Stmt {
		switch st := s.(type) {
		case *ast.GoStmt:
			needV = true
			rewriteInExpr(st.Call, rewriteStmts)
			return goToVsync(st, path, fset)
		case *ast.SelectStmt:
			needV = true
			for _, c := range st.Body.List {
				cc := c.(*ast.CommClause)
				rewriteStmts(cc.Body)
			}
			if curOpts.chanOps {
				return selectToVsyncB(st, path, fset)
			}
			return selectToVsync(st, path, fset)
		case *ast.SendStmt:
			if curOpts.chanOps {
				needV = true
				replaceRecvs(st, &needV)
				return &ast.ExprStmt{X: &ast.CallExpr{Fun: vsel("Send"), Args: []ast.Expr{st.Chan, st.Value}}}
			}
		case *ast.RangeStmt:
			if curOpts.chanOps && st.Key != nil && st.Value == nil {
				// `for x := range ch` cannot be told from a range over a slice/map/int without types;
				// a range over a channel has exactly one iteration variable - refuse names that look
				// like channels rather than guess
				if id, ok := st.X.(*ast.Ident); ok && (strings.HasSuffix(id.Name, "C") || strings.HasSuffix(strings.ToLower(id.Name), "ch") || strings.HasSuffix(strings.ToLower(id.Name), "chan")) {
					die("%s: range over what looks like a channel (%s) is not supported by the channel rewrite", fset.Position(st.Pos()), id.Name)
				}
			}
		case *ast.LabeledStmt:
			st.Stmt = rewriteStmt(st.Stmt)
			return st
		}
		if curOpts.chanOps {
			// plain receives and close() in the expressions of this statement (nested statement lists
			// are reached through the recursion below, one statement at a time)
			replaceRecvs(s, &needV)
		}
		// recurse into nested statement lists
		ast.Inspect(s, func(n ast.Node) bool {
			switch b := n.(type) {
			case *ast.IfStmt:
				if ast.Stmt(b) != s && curOpts.chanOps {
					replaceRecvs(b, &needV) // an else-if: its init / condition
				}
			case *ast.BlockStmt:
				rewriteStmts(b.List)
				return false
			case *ast.CaseClause:
				rewriteStmts(b.Body)
				return false
			case *ast.CommClause:
				rewriteStmts(b.Body)
				return false
			case *ast.FuncLit:
				rewriteStmts(b.Body.List)
				return false
			}
			return true
		})
		return s
	}
	rewriteStmts = func(list []ast.Stmt) {
		for i := range list {
			list[i] = rewriteStmt(list[i])
		}
	}
	for _, d := range f.Decls {
		if fd, ok := d.(*ast.FuncDecl); ok && fd.Body != nil {
			if curOpts.skip[fd.Name.Name] {
				continue
			}
			rewriteStmts(fd.Body.List)
		}
		if gd, ok := d.(*ast.GenDecl); ok {
			ast.Inspect(gd, func(n ast.Node) bool {
				if fl, ok := n.(*ast.FuncLit); ok {
					rewriteStmts(fl.Body.List)
					return false
				}
				return true
			})
		}
	}
	if needV {
		changed = true
		addImport(f, "verifvsync", rtPath+"/vsync")
	}
	if !changed {
		return nil, false
	}
	var buf bytes.Buffer
	// comments are dropped for rewritten statements; positions are unreliable after
	// surgery, so print without the comment map (build tags of the originals: none).
	f.Comments = nil
	if err := format.Node(&buf, fset, f); err != nil {
		die("print %s: %v", path, err)
	}
	return buf.Bytes(), true
}

func rewriteInExpr(e ast.Expr, rewriteStmts func([]ast.Stmt)) {
	ast.Inspect(e, func(n ast.Node) bool {
		if fl, ok := n.(*ast.FuncLit); ok {
			rewriteStmts(fl.Body.List)
			return false
		}
		return true
	})
}

func addImport(f *ast.File, name, path string) {
	spec := &ast.ImportSpec{Name: ast.NewIdent(name), Path: &ast.BasicLit{Kind: token.STRING, Value: strconv.Quote(path)}}
	for _, d := range f.Decls {
		if gd, ok := d.(*ast.GenDecl); ok && gd.Tok == token.IMPORT {
			gd.Specs = append(gd.Specs, spec)
			if !gd.Lparen.IsValid() {
				gd.Lparen = gd.Pos()
				gd.Rparen = gd.End()
			}
			f.Imports = append(f.Imports, spec)
			return
		}
	}
	gd := &ast.GenDecl{Tok: token.IMPORT, Specs: []ast.Spec{spec}}
	f.Decls = append([]ast.Decl{gd}, f.Decls...)
	f.Imports = append(f.Imports, spec)
}

// goToVsync: `go f(a, b)` -> `{ va0, va1 := a, b; verifvsync.Go(func() { f(va0, va1) }) }`
func goToVsync(st *ast.GoStmt, path string, fset *token.FileSet) ast.Stmt {
	call := st.Call
	if call.Ellipsis.IsValid() {
		die("%s: go statement with variadic spread unsupported", fset.Position(st.Pos()))
	}
	var lhs, rhs []ast.Expr
	newArgs := make([]ast.Expr, len(call.Args))
	for i, a := range call.Args {
		id := ast.NewIdent(fmt.Sprintf("verifGoArg%d", i))
		lhs = append(lhs, id)
		rhs = append(rhs, a)
		newArgs[i] = ast.NewIdent(id.Name)
	}
	inner := &ast.CallExpr{Fun: call.Fun, Args: newArgs}
	lit := &ast.FuncLit{
		Type: &ast.FuncType{Params: &ast.FieldList{}},
		Body: &ast.BlockStmt{List: []ast.Stmt{&ast.ExprStmt{X: inner}}},
	}
	goCall := &ast.ExprStmt{X: &ast.CallExpr{
		Fun:  &ast.SelectorExpr{X: ast.NewIdent("verifvsync"), Sel: ast.NewIdent("Go")},
		Args: []ast.Expr{lit},
	}}
	blk := &ast.BlockStmt{}
	if len(lhs) > 0 {
		blk.List = append(blk.List, &ast.AssignStmt{Lhs: lhs, Tok: token.DEFINE, Rhs: rhs})
	}
	blk.List = append(blk.List, goCall)
	return blk
}

func vsel(name string) ast.Expr {
	return &ast.SelectorExpr{X: ast.NewIdent("verifvsync"), Sel: ast.NewIdent(name)}
}

// replaceRecvs rewrites, in the expressions that belong directly to statement s (not to statements
// nested in it, not inside function literals, not in select headers):
//
//	v, ok := <-ch   ->  v, ok := verifvsync.Recv2(ch)
//	<-ch            ->  verifvsync.Recv(ch)
//	close(ch)       ->  verifvsync.Close(ch)
func replaceRecvs(s ast.Stmt, needV *bool) {
	if as, ok := s.(*ast.AssignStmt); ok && len(as.Lhs) == 2 && len(as.Rhs) == 1 {
		if ue, ok := as.Rhs[0].(*ast.UnaryExpr); ok && ue.Op == token.ARROW {
			as.Rhs[0] = &ast.CallExpr{Fun: vsel("Recv2"), Args: []ast.Expr{ue.X}}
			*needV = true
		}
	}
	var fix func(e ast.Expr) ast.Expr
	fix = func(e ast.Expr) ast.Expr {
		switch x := e.(type) {
		case *ast.UnaryExpr:
			x.X = fix(x.X)
			if x.Op == token.ARROW {
				*needV = true
				return &ast.CallExpr{Fun: vsel("Recv"), Args: []ast.Expr{x.X}}
			}
		case *ast.CallExpr:
			x.Fun = fix(x.Fun)
			for i := range x.Args {
				x.Args[i] = fix(x.Args[i])
			}
			if id, ok := x.Fun.(*ast.Ident); ok && id.Name == "close" && len(x.Args) == 1 {
				*needV = true
				x.Fun = vsel("Close")
			}
		case *ast.BinaryExpr:
			x.X, x.Y = fix(x.X), fix(x.Y)
		case *ast.ParenExpr:
			x.X = fix(x.X)
		case *ast.StarExpr:
			x.X = fix(x.X)
		case *ast.SelectorExpr:
			x.X = fix(x.X)
		case *ast.IndexExpr:
			x.X, x.Index = fix(x.X), fix(x.Index)
		case *ast.SliceExpr:
			x.X = fix(x.X)
		case *ast.TypeAssertExpr:
			x.X = fix(x.X)
		case *ast.KeyValueExpr:
			x.Value = fix(x.Value)
		case *ast.CompositeLit:
			for i := range x.Elts {
				x.Elts[i] = fix(x.Elts[i])
			}
		}
		return e
	}
	fixList := func(l []ast.Expr) {
		for i := range l {
			l[i] = fix(l[i])
		}
	}
	var fixSimple func(st ast.Stmt)
	fixSimple = func(st ast.Stmt) {
		switch x := st.(type) {
		case nil:
		case *ast.ExprStmt:
			x.X = fix(x.X)
		case *ast.AssignStmt:
			fixList(x.Rhs)
		case *ast.ReturnStmt:
			fixList(x.Results)
		case *ast.IncDecStmt:
		case *ast.SendStmt:
			x.Value = fix(x.Value)
		case *ast.DeferStmt:
			if c, ok := fix(x.Call).(*ast.CallExpr); ok {
				x.Call = c
			}
		case *ast.DeclStmt:
			if gd, ok := x.Decl.(*ast.GenDecl); ok {
				for _, sp := range gd.Specs {
					if vs, ok := sp.(*ast.ValueSpec); ok {
						fixList(vs.Values)
					}
				}
			}
		case *ast.IfStmt:
			fixSimple(x.Init)
			x.Cond = fix(x.Cond)
		case *ast.ForStmt:
			fixSimple(x.Init)
			if x.Cond != nil {
				x.Cond = fix(x.Cond)
			}
			fixSimple(x.Post)
		case *ast.SwitchStmt:
			fixSimple(x.Init)
			if x.Tag != nil {
				x.Tag = fix(x.Tag)
			}
		case *ast.RangeStmt:
			x.X = fix(x.X)
		}
	}
	fixSimple(s)
}

// selectToVsyncB: a select whose cases are receives (binding or not) and an optional default ->
//
//	switch verifI, verifV, verifOk := verifvsync.SelectB(def, ch0, ch1...); verifI {
//	case 0: x := verifvsync.Cast(ch0, verifV); _ = verifOk; body...
//
// A send case is not supported (hard error).
func selectToVsyncB(st *ast.SelectStmt, path string, fset *token.FileSet) ast.Stmt {
	var chans []ast.Expr
	var clauses []ast.Stmt
	hasDefault := false
	idx := 0
	use := func(n string) ast.Stmt {
		return &ast.AssignStmt{Lhs: []ast.Expr{ast.NewIdent("_")}, Tok: token.ASSIGN, Rhs: []ast.Expr{ast.NewIdent(n)}}
	}
	for _, c := range st.Body.List {
		cc := c.(*ast.CommClause)
		if cc.Comm == nil {
			hasDefault = true
			clauses = append(clauses, &ast.CaseClause{
				List: []ast.Expr{&ast.UnaryExpr{Op: token.SUB, X: &ast.BasicLit{Kind: token.INT, Value: "1"}}},
				Body: cc.Body,
			})
			continue
		}
		var pre []ast.Stmt
		switch cm := cc.Comm.(type) {
		case *ast.ExprStmt:
			ue, ok := cm.X.(*ast.UnaryExpr)
			if !ok || ue.Op != token.ARROW {
				die("%s: unsupported select case", fset.Position(cc.Pos()))
			}
			chans = append(chans, ue.X)
		case *ast.AssignStmt:
			if len(cm.Rhs) != 1 {
				die("%s: unsupported select case", fset.Position(cc.Pos()))
			}
			ue, ok := cm.Rhs[0].(*ast.UnaryExpr)
			if !ok || ue.Op != token.ARROW {
				die("%s: unsupported select case", fset.Position(cc.Pos()))
			}
			chans = append(chans, ue.X)
			cast := &ast.CallExpr{Fun: vsel("Cast"), Args: []ast.Expr{ue.X, ast.NewIdent("verifV")}}
			rhs := []ast.Expr{cast}
			if len(cm.Lhs) == 2 {
				rhs = append(rhs, ast.NewIdent("verifOk"))
			}
			pre = append(pre, &ast.AssignStmt{Lhs: cm.Lhs, Tok: cm.Tok, Rhs: rhs})
		default:
			die("%s: select with a send case is not supported by the channel rewrite", fset.Position(cc.Pos()))
		}
		clauses = append(clauses, &ast.CaseClause{
			List: []ast.Expr{&ast.BasicLit{Kind: token.INT, Value: strconv.Itoa(idx)}},
			Body: append(pre, cc.Body...),
		})
		idx++
	}
	def := "false"
	if hasDefault {
		def = "true"
	}
	args := append([]ast.Expr{ast.NewIdent(def)}, chans...)
	init := &ast.AssignStmt{
		Lhs: []ast.Expr{ast.NewIdent("verifI"), ast.NewIdent("verifV"), ast.NewIdent("verifOk")},
		Tok: token.DEFINE,
		Rhs: []ast.Expr{&ast.CallExpr{Fun: vsel("SelectB"), Args: args}},
	}
	// the three variables are used even when no case binds a value
	first := &ast.CaseClause{List: []ast.Expr{&ast.UnaryExpr{Op: token.SUB, X: &ast.BasicLit{Kind: token.INT, Value: "2"}}},
		Body: []ast.Stmt{use("verifV"), use("verifOk")}}
	return &ast.SwitchStmt{Init: init, Tag: ast.NewIdent("verifI"), Body: &ast.BlockStmt{List: append([]ast.Stmt{first}, clauses...)}}
}

// selectToVsync: non-binding receive-only select -> switch verifvsync.Select(def, chans...)
func selectToVsync(st *ast.SelectStmt, path string, fset *token.FileSet) ast.Stmt {
	var chans []ast.Expr
	var clauses []ast.Stmt
	hasDefault := false
	idx := 0
	for _, c := range st.Body.List {
		cc := c.(*ast.CommClause)
		if cc.Comm == nil {
			hasDefault = true
			clauses = append(clauses, &ast.CaseClause{
				List: []ast.Expr{&ast.UnaryExpr{Op: token.SUB, X: &ast.BasicLit{Kind: token.INT, Value: "1"}}},
				Body: cc.Body,
			})
			continue
		}
		es, ok := cc.Comm.(*ast.ExprStmt)
		if !ok {
			die("%s: unsupported select case (binding receive or send); refusing to leave it native", fset.Position(cc.Pos()))
		}
		ue, ok := es.X.(*ast.UnaryExpr)
		if !ok || ue.Op != token.ARROW {
			die("%s: unsupported select case", fset.Position(cc.Pos()))
		}
		chans = append(chans, ue.X)
		clauses = append(clauses, &ast.CaseClause{
			List: []ast.Expr{&ast.BasicLit{Kind: token.INT, Value: strconv.Itoa(idx)}},
			Body: cc.Body,
		})
		idx++
	}
	def := "false"
	if hasDefault {
		def = "true"
	}
	args := append([]ast.Expr{ast.NewIdent(def)}, chans...)
	return &ast.SwitchStmt{
		Tag: &ast.CallExpr{
			Fun:  &ast.SelectorExpr{X: ast.NewIdent("verifvsync"), Sel: ast.NewIdent("Select")},
			Args: args,
		},
		Body: &ast.BlockStmt{List: clauses},
	}
}

// ------------------------------------------------------------------ special rewrites

// fsyncCallback inserts `verifSyncHook(f)` at the top of fileutil.Fsync / Fdatasync.
func fsyncCallback(ov *overlay) {
	path := filepath.Join(*repo, "etcd/client/pkg/fileutil/sync_linux.go")
	fset := token.NewFileSet()
	f, err := parser.ParseFile(fset, path, nil, parser.ParseComments)
	if err != nil {
		die("parse %s: %v", path, err)
	}
	found := 0
	for _, d := range f.Decls {
		fd, ok := d.(*ast.FuncDecl)
		if !ok || fd.Body == nil {
			continue
		}
		if fd.Name.Name == "Fsync" || fd.Name.Name == "Fdatasync" {
			if len(fd.Type.Params.List) != 1 || len(fd.Type.Params.List[0].Names) != 1 {
				die("%s: unexpected signature of %s", path, fd.Name.Name)
			}
			arg := fd.Type.Params.List[0].Names[0].Name
			call := &ast.ExprStmt{X: &ast.CallExpr{Fun: ast.NewIdent("verifSyncHook"),
				Args: []ast.Expr{&ast.BasicLit{Kind: token.STRING, Value: strconv.Quote(fd.Name.Name)}, ast.NewIdent(arg)}}}
			fd.Body.List = append([]ast.Stmt{call}, fd.Body.List...)
			found++
		}
	}
	if found != 2 {
		die("%s: anchor Fsync/Fdatasync not found (%d)", path, found)
	}
	var buf bytes.Buffer
	if err := format.Node(&buf, fset, f); err != nil {
		die("print: %v", err)
	}
	dst := filepath.Join(*out, "fileutil", "sync_linux.go")
	os.MkdirAll(filepath.Dir(dst), 0o755)
	os.WriteFile(dst, buf.Bytes(), 0o644)
	ov.Replace[path] = dst
}

// raftExtract splits raftexample/raft.go so that the cluster simulator can drive the real
// Ready-handling sequence one Ready at a time:
//
//	(a) the raft.Config literal of startRaft          -> func (rc *RaftNode) verifRaftConfig() *raft.Config
//	(b) the body of `case rd := <-rc.Node.Ready():`    -> func (rc *RaftNode) verifHandleReady(rd raft.Ready) bool
//
// The original functions are kept untouched; the extracted code is a *copy* of the
// current AST, so any edit of those statements in the repository is what gets explored.
func raftExtract(ov *overlay) {
	path := filepath.Join(*repo, "raftexample/raft.go")
	fset := token.NewFileSet()
	f, err := parser.ParseFile(fset, path, nil, 0)
	if err != nil {
		die("parse %s: %v", path, err)
	}
	var cfgLit ast.Expr
	var readyBody []ast.Stmt
	var readyVar string
	for _, d := range f.Decls {
		fd, ok := d.(*ast.FuncDecl)
		if !ok || fd.Body == nil {
			continue
		}
		switch fd.Name.Name {
		case "startRaft":
			ast.Inspect(fd.Body, func(n ast.Node) bool {
				if ue, ok := n.(*ast.UnaryExpr); ok && ue.Op == token.AND {
					if cl, ok := ue.X.(*ast.CompositeLit); ok {
						if se, ok := cl.Type.(*ast.SelectorExpr); ok && se.Sel.Name == "Config" {
							if x, ok := se.X.(*ast.Ident); ok && x.Name == "raft" {
								cfgLit = ue
								return false
							}
						}
					}
				}
				return true
			})
		case "serveChannels":
			ast.Inspect(fd.Body, func(n ast.Node) bool {
				cc, ok := n.(*ast.CommClause)
				if !ok || cc.Comm == nil {
					return true
				}
				as, ok := cc.Comm.(*ast.AssignStmt)
				if !ok || len(as.Rhs) != 1 {
					return true
				}
				ue, ok := as.Rhs[0].(*ast.UnaryExpr)
				if !ok || ue.Op != token.ARROW {
					return true
				}
				call, ok := ue.X.(*ast.CallExpr)
				if !ok {
					return true
				}
				se, ok := call.Fun.(*ast.SelectorExpr)
				if !ok || se.Sel.Name != "Ready" {
					return true
				}
				readyBody = cc.Body
				readyVar = as.Lhs[0].(*ast.Ident).Name
				return false
			})
		}
	}
	if cfgLit == nil {
		die("%s: anchor raft.Config literal in startRaft not found", path)
	}
	if readyBody == nil {
		die("%s: anchor `case rd := <-rc.Node.Ready()` in serveChannels not found", path)
	}
	// `return` statements inside the Ready body mean "stop the node": translate to return false.
	var fix func(n ast.Node) bool
	fix = func(n ast.Node) bool {
		switch x := n.(type) {
		case *ast.FuncLit:
			return false
		case *ast.ReturnStmt:
			if len(x.Results) == 0 {
				x.Results = []ast.Expr{ast.NewIdent("false")}
			}
		}
		return true
	}
	body := &ast.BlockStmt{List: append(append([]ast.Stmt{}, readyBody...), &ast.ReturnStmt{Results: []ast.Expr{ast.NewIdent("true")}})}
	ast.Inspect(body, fix)

	var buf bytes.Buffer
	buf.WriteString("//go:build verif\n\n// Code generated by /verif/instr from raftexample/raft.go. DO NOT EDIT.\n\npackage raftexample\n\n")
	// import exactly the packages the extracted code refers to
	used := map[string]bool{}
	collect := func(n ast.Node) {
		ast.Inspect(n, func(n ast.Node) bool {
			if se, ok := n.(*ast.SelectorExpr); ok {
				if id, ok := se.X.(*ast.Ident); ok {
					used[id.Name] = true
				}
			}
			return true
		})
	}
	collect(cfgLit)
	collect(body)
	used["raft"] = true
	buf.WriteString("import (\n")
	for _, im := range f.Imports {
		name := ""
		if im.Name != nil {
			name = im.Name.Name
		} else {
			p, _ := strconv.Unquote(im.Path.Value)
			name = filepath.Base(p)
			if name == "v3" || name == "v2" {
				name = filepath.Base(filepath.Dir(p))
			}
		}
		if !used[name] {
			continue
		}
		if im.Name != nil {
			buf.WriteString("\t" + im.Name.Name + " " + im.Path.Value + "\n")
		} else {
			buf.WriteString("\t" + im.Path.Value + "\n")
		}
	}
	buf.WriteString(")\n\n")
	buf.WriteString("func (rc *RaftNode) verifRaftConfig() *raft.Config {\n\treturn ")
	format.Node(&buf, fset, cfgLit)
	buf.WriteString("\n}\n\n")
	buf.WriteString("func (rc *RaftNode) verifHandleReady(" + readyVar + " raft.Ready) bool ")
	format.Node(&buf, fset, body)
	buf.WriteString("\n")
	dst := filepath.Join(*out, "raftexample", "verif_extract.go")
	os.MkdirAll(filepath.Dir(dst), 0o755)
	os.WriteFile(dst, buf.Bytes(), 0o644)
	ov.Replace[filepath.Join(*repo, "raftexample/verif_extract.go")] = dst
}
